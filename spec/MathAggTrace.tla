--------------------------- MODULE MathAggTrace ---------------------------
(***************************************************************************)
(* Trace validation for rxsci.math.  A batch of recorded executions of the *)
(* real operators is read from IOEnv.TRACE_FILE.  One record is one item   *)
(* sequence sent to a streaming (reduce=False) and a reduce (reduce=True)  *)
(* subscription of every operator in `ops`, side by side as in MathAgg:    *)
(*   [mode (plain|mux|store), num (exact|float), unit, kmul, kadd, items,  *)
(*    ops,                                                                 *)
(*    s: [op -> [outs, final, ended, km]],  r: [op -> [outs, final, ...]]] *)
(* items: integers a, the item sent is a / unit; outs[j]: the values       *)
(* emitted while item j was delivered, final: at completion.  A value is   *)
(* <<num, den>> (the harness converts the real output exactly with         *)
(* Fraction), <<>> for None, <<num, den, 2>> for a stddev whose square is  *)
(* num/den, <<0, 0, 9>> for anything that is not such a number.  km[j]:    *)
(* key_mapper calls during item j.                                         *)
(*                                                                         *)
(* The record is replayed through Item / Complete of MathAgg with          *)
(* inst = ops.  One verdict per subscription (C12), by the part-2          *)
(* definitions of MathAgg only:                                            *)
(*   count   a streaming instance does not emit exactly one value per item *)
(*           (and none at completion), a reduce instance does not emit     *)
(*           exactly one value, at completion                              *)
(*   value   an emitted value is not the statistic of the items so far     *)
(*   empty   the value a reduce instance emits on no items is wrong        *)
(*   streaming-vs-reduce  the reduce value is the specified one but not    *)
(*           the last value of the streaming instance                      *)
(*   error   the subscription did not complete normally                    *)
(* A status is <<step, clause, insync>>, step = 0 / clause = "" when the   *)
(* subscription is accepted.  insync: the emissions also equal those of    *)
(* the implementation-shaped part (with the configured FormalClears) and   *)
(* key_mapper ran once per item -- reported, not a verdict.                *)
(***************************************************************************)
EXTENDS MathAgg, Json, IOUtils

Traces == JsonDeserialize(IOEnv.TRACE_FILE)

VARIABLES tid, l, ph, stS, stR

tvars == <<vars, tid, l, ph, stS, stR>>

T == Traces[tid]

OpSeq == <<"sum", "mean", "min", "max", "variance", "stddev", "formal.variance", "formal.stddev">>

Accepted == <<0, "", TRUE>>
Frozen(s) == s[2] = "count" \/ s[2] = "error"
FirstStatus(ended) == IF ended # "completed" THEN <<0, "error", FALSE>> ELSE Accepted
Bad(s, step, clause) == IF s[1] = 0 THEN <<step, clause, FALSE>> ELSE <<s[1], s[2], FALSE>>
    \* (used for `count`: the emissions can no longer be aligned with the model)

TraceInit ==
    /\ tid \in 1..Len(Traces)
    /\ l = 0 /\ ph = "run"
    /\ bag = EmptyBag /\ nrecv = 0 /\ hist = <<>> /\ unit = Traces[tid].unit
    /\ kmul = Traces[tid].kmul /\ kadd = Traces[tid].kadd
    /\ inst = {Traces[tid].ops[j] : j \in 1..Len(Traces[tid].ops)}
    /\ done = FALSE /\ kmCalls = 0
    /\ sumAcc = SumSeed /\ meanAcc = MeanSeed /\ minAcc = None /\ maxAcc = None
    /\ wel = WelSeed /\ fAccS = FormalSeed /\ fAccR = FormalSeed
    /\ lastS = [op \in Ops |-> NoVal] /\ lastR = [op \in Ops |-> NoVal]
    /\ cntS = 0 /\ cntR = 0
    /\ st = Stats(EmptyBag, 1)
    /\ stS = [op \in Ops |-> IF op \in inst THEN FirstStatus(Traces[tid].s[op].ended)
                             ELSE Accepted]
    /\ stR = [op \in Ops |-> IF op \in inst THEN FirstStatus(Traces[tid].r[op].ended)
                             ELSE Accepted]

(* streaming subscription of op: o was emitted during item `step` *)
ItemS(op, s, o, step, expected, modelled, kmc) ==
    IF Frozen(s) THEN s
    ELSE IF Len(o) # 1 THEN Bad(s, step, "count")
    ELSE LET sync == s[3] /\ o[1] = modelled /\ kmc = 1
         IN IF s[1] = 0 /\ ~Denotes(o[1], expected) THEN <<step, "value", sync>>
            ELSE <<s[1], s[2], sync>>

(* reduce subscription of op during an item: nothing may be emitted *)
ItemR(op, s, o, step, kmc) ==
    IF Frozen(s) THEN s
    ELSE IF Len(o) # 0 THEN Bad(s, step, "count")
    ELSE <<s[1], s[2], s[3] /\ kmc = 1>>

TraceItem ==
    /\ ph = "run" /\ l < Len(T.items)
    /\ inst \subseteq Ops /\ T.unit >= 1
    /\ Item(T.items[l + 1])
    /\ stS' = [op \in Ops |->
                 IF op \notin inst THEN stS[op]
                 ELSE ItemS(op, stS[op], T.s[op].outs[l + 1], l + 1,
                            SpecValue(op, st', unit), lastS'[op], T.s[op].km[l + 1])]
    /\ stR' = [op \in Ops |->
                 IF op \notin inst THEN stR[op]
                 ELSE ItemR(op, stR[op], T.r[op].outs[l + 1], l + 1, T.r[op].km[l + 1])]
    /\ l' = l + 1
    /\ UNCHANGED <<tid, ph>>

(* streaming subscription at completion: nothing more may be emitted *)
FinalS(op, s, f, step) ==
    IF Frozen(s) THEN s
    ELSE IF Len(f) # 0 THEN Bad(s, step, "count")
    ELSE s

(* reduce subscription at completion: exactly one value, the statistic of all items,
   equal to the last streaming value *)
FinalR(op, s, f, step, expected, modelled, sS, sOuts) ==
    IF Frozen(s) THEN s
    ELSE IF Len(f) # 1 THEN Bad(s, step, "count")
    ELSE LET sync == s[3] /\ f[1] = modelled
             clause == IF ~Denotes(f[1], expected) THEN (IF N = 0 THEN "empty" ELSE "value")
                       ELSE IF /\ N >= 1 /\ ~Frozen(sS) /\ Len(sOuts[N]) = 1
                               /\ f[1] # sOuts[N][1]
                            THEN "streaming-vs-reduce"
                       ELSE ""
         IN IF s[1] = 0 /\ clause # "" THEN <<step, clause, sync>> ELSE <<s[1], s[2], sync>>

TraceComplete ==
    /\ ph = "run" /\ l = Len(T.items)
    /\ inst \subseteq Ops /\ T.unit >= 1
    /\ Complete
    /\ stS' = [op \in Ops |-> IF op \notin inst THEN stS[op]
                              ELSE FinalS(op, stS[op], T.s[op].final, l + 1)]
    /\ stR' = [op \in Ops |->
                 IF op \notin inst THEN stR[op]
                 ELSE FinalR(op, stR[op], T.r[op].final, l + 1, SpecValue(op, st, unit),
                             lastR'[op], stS[op], T.s[op].outs)]
    /\ PrintT(<<"VERDICT", tid, "DONE",
                [j \in 1..Len(T.ops) |-> <<T.ops[j], stS'[T.ops[j]], stR'[T.ops[j]]>>]>>)
    /\ ph' = "end"
    /\ UNCHANGED <<tid, l>>

(* a record the model cannot be aligned with: harness error, never a verdict *)
TraceBroken ==
    /\ ph = "run" /\ ~(inst \subseteq Ops /\ T.unit >= 1)
    /\ PrintT(<<"VERDICT", tid, "BROKEN", "model-harness-record">>)
    /\ ph' = "end"
    /\ UNCHANGED <<vars, tid, l, stS, stR>>

TraceNext == TraceItem \/ TraceComplete \/ TraceBroken

TraceSpec == TraceInit /\ [][TraceNext]_tvars

(* the design-level invariants must also hold along every replayed trace *)
TraceModelOK ==
    /\ WelfordIdentity /\ FoldIdentity /\ Counts /\ KeyMapperOnce
    /\ StreamingValue /\ ReduceValue /\ StreamEqualsReduce /\ StdDevSquared
=============================================================================
