---------------------------- MODULE ParquetDump ----------------------------
(***************************************************************************)
(* rxsci.container.parquet.dump_to_file on a plain observable:             *)
(*                                                                         *)
(*     source -> rs.data.batch(b) -> to_record(schema) -> _dump_parquet    *)
(*                                                                         *)
(* and load_from_file(batch_size = m) reading the written file back.       *)
(*                                                                         *)
(* The source rows are the integers 1..n (every row carries a unique id),  *)
(* they arrive one by one (Row), then the source completes (Complete).     *)
(* Everything downstream of an on_next runs synchronously, so one source   *)
(* event is one atomic step made of the three stages below.                *)
(*                                                                         *)
(* Stage 1, batch(b) = scan(_batch, seed=([], False), terminator=          *)
(*   _terminate) -> filter(i[1] == True) -> map(i[0]).  The accumulator is *)
(*   a python tuple (list, flag) whose *list object* is mutated in place   *)
(*   (b.append(i)) and handed downstream as the same object.  Python list  *)
(*   identity is therefore modelled: `heap` maps object ids to contents,   *)
(*   the accumulator and every emitted batch hold ids.  scan_obs seeds     *)
(*   lazily (copy.deepcopy(seed) on the first item or at completion).      *)
(* Stage 2, create_record: `columns_data` (colbuf) is a closure variable   *)
(*   created once per operator; the RecordBatch is built from the whole    *)
(*   buffer.                                                               *)
(* Stage 3, _dump_parquet: writer.write(record_batch) appends its rows.    *)
(*                                                                         *)
(* FixBatch / FixBuffer select the *repaired* transitions:                 *)
(*   FixBatch : batch(n) emits consecutive chunks of exactly n items plus  *)
(*              one final non-empty shorter chunk (rxsci commit bbd7bc7);  *)
(*              FALSE is batch() as it was before that commit;             *)
(*   FixBuffer: the column lists are created per _create_record call       *)
(*              (proposed_fixes/C20-parquet-fresh-column-buffers.diff);    *)
(*              FALSE is create_record as found.                           *)
(* FALSE/FALSE is the code the design was read from (DESIGN section 9,     *)
(* defects 3 and 9).  The check finds out from recorded executions which   *)
(* variant the tree under test follows.                                    *)
(***************************************************************************)
EXTENDS Naturals, Sequences, TLC

CONSTANTS MaxN,        \* rows: n \in 0..MaxN
          BatchSizes,  \* dump batch_size b
          LoadSizes,   \* load batch_size m
          FixBatch, FixBuffer

VARIABLES n, b, m,     \* the configuration of this execution (chosen initially)
          sent,        \* rows delivered by the source so far
          phase,       \* "dump" -> "load" -> "done"
          hasState,    \* scan_obs: has_state
          acc,         \* scan_obs: state = (list id, flag)      (valid iff hasState)
          heap,        \* python list objects: id (index) |-> contents
          batches,     \* history: <<[id, rows]>> lists handed downstream by batch(),
                       \*          rows = contents at the time of emission
          colbuf,      \* create_record: columns_data (one column: the row ids)
          recs,        \* sizes of the record batches handed to the writer
          file,        \* rows in the parquet file
          lpos,        \* loader: rows of the file consumed
          out          \* loader: rows emitted

vars == <<n, b, m, sent, phase, hasState, acc, heap, batches, colbuf, recs, file, lpos, out>>

NoAcc == [lst |-> 0, flag |-> FALSE]

-----------------------------------------------------------------------------
(* Stage 1: rs.data.batch                                                  *)

(* copy.deepcopy(seed) with seed = ([], False): a fresh empty list object *)
SeedHeap(h) == Append(h, <<>>)
SeedAcc(h)  == [lst |-> Len(h) + 1, flag |-> FALSE]

(* _batch(acc, i) before bbd7bc7:
       if acc[1] is True: return ([i], False)
       b = acc[0]; b.append(i)
       return (b, True) if len(b) == batch_size else (b, False)            *)
BatchHeapOrig(h, a, i) ==
    IF a.flag THEN Append(h, <<i>>)
    ELSE [h EXCEPT ![a.lst] = Append(@, i)]
BatchAccOrig(h, a, i) ==
    IF a.flag THEN [lst |-> Len(h) + 1, flag |-> FALSE]
    ELSE [lst |-> a.lst, flag |-> (Len(h[a.lst]) + 1 = b)]
(* _terminate(acc) before bbd7bc7: return (acc[0], True) *)
TermAccOrig(h, a) == [lst |-> a.lst, flag |-> TRUE]

(* repaired:
       if acc[1] is True: b = [i]
       else: b = acc[0]; b.append(i)
       return (b, len(b) == batch_size)                                    *)
BatchHeapFix(h, a, i) == BatchHeapOrig(h, a, i)
BatchAccFix(h, a, i) ==
    IF a.flag THEN [lst |-> Len(h) + 1, flag |-> (1 = b)]
    ELSE [lst |-> a.lst, flag |-> (Len(h[a.lst]) + 1 = b)]
(* repaired: return (acc[0], acc[1] is False and len(acc[0]) > 0) *)
TermAccFix(h, a) == [lst |-> a.lst, flag |-> (~a.flag /\ Len(h[a.lst]) > 0)]

BatchHeap(h, a, i) == IF FixBatch THEN BatchHeapFix(h, a, i) ELSE BatchHeapOrig(h, a, i)
BatchAcc(h, a, i)  == IF FixBatch THEN BatchAccFix(h, a, i) ELSE BatchAccOrig(h, a, i)
TermAcc(h, a)      == IF FixBatch THEN TermAccFix(h, a) ELSE TermAccOrig(h, a)

(* scan_obs.on_next / on_completed: value = state, or the seed when has_state is False *)
ScanHeap0 == IF hasState THEN heap ELSE SeedHeap(heap)
ScanAcc0  == IF hasState THEN acc ELSE SeedAcc(heap)

-----------------------------------------------------------------------------
(* Stages 2 and 3 for one list `id` emitted by filter/map (contents read from h) *)
ColBufAfter(h, id) == (IF FixBuffer THEN <<>> ELSE colbuf) \o h[id]

Downstream(h, a) ==
    IF a.flag          \* rs.ops.filter(lambda i: i[1] == True), rs.ops.map(lambda i: i[0])
    THEN LET cb == ColBufAfter(h, a.lst) IN
         /\ batches' = Append(batches, [id |-> a.lst, rows |-> h[a.lst]])
         /\ colbuf' = cb
         /\ recs' = Append(recs, Len(cb))      \* pa.RecordBatch.from_arrays(columns_data)
         /\ file' = file \o cb                 \* writer.write(record_batch)
    ELSE UNCHANGED <<batches, colbuf, recs, file>>

-----------------------------------------------------------------------------
Init ==
    /\ n \in 0..MaxN /\ b \in BatchSizes /\ m \in LoadSizes
    /\ sent = 0 /\ phase = "dump"
    /\ hasState = FALSE /\ acc = NoAcc /\ heap = <<>> /\ batches = <<>>
    /\ colbuf = <<>> /\ recs = <<>> /\ file = <<>>
    /\ lpos = 0 /\ out = <<>>

(* the source emits row sent+1 *)
Row ==
    /\ phase = "dump" /\ sent < n
    /\ LET i  == sent + 1
           h1 == BatchHeap(ScanHeap0, ScanAcc0, i)
           a1 == BatchAcc(ScanHeap0, ScanAcc0, i)
       IN /\ heap' = h1 /\ acc' = a1 /\ hasState' = TRUE
          /\ Downstream(h1, a1)
    /\ sent' = sent + 1
    /\ UNCHANGED <<n, b, m, phase, lpos, out>>

(* the source completes: terminator, then the writer is closed *)
Complete ==
    /\ phase = "dump" /\ sent = n
    /\ LET h1 == ScanHeap0
           a1 == TermAcc(ScanHeap0, ScanAcc0)
       IN /\ heap' = h1 /\ acc' = a1 /\ hasState' = TRUE
          /\ Downstream(h1, a1)
    /\ phase' = "load"
    /\ UNCHANGED <<n, b, m, sent, lpos, out>>

(* load_from_file: pf.iter_batches(batch_size = m), rows emitted one by one *)
Min(x, y) == IF x < y THEN x ELSE y

LoadBatch ==
    /\ phase = "load" /\ lpos < Len(file)
    /\ LET e == Min(lpos + m, Len(file)) IN
         /\ out' = out \o SubSeq(file, lpos + 1, e)
         /\ lpos' = e
    /\ UNCHANGED <<n, b, m, sent, phase, hasState, acc, heap, batches, colbuf, recs, file>>

LoadDone ==
    /\ phase = "load" /\ lpos = Len(file)
    /\ phase' = "done"
    /\ UNCHANGED <<n, b, m, sent, hasState, acc, heap, batches, colbuf, recs, file, lpos, out>>

Next == Row \/ Complete \/ LoadBatch \/ LoadDone

Spec == Init /\ [][Next]_vars

-----------------------------------------------------------------------------
(* Specification-level definitions                                         *)

Iota(k) == [i \in 1..k |-> i]

RECURSIVE Concat(_)
Concat(ss) == IF ss = <<>> THEN <<>> ELSE Head(ss) \o Concat(Tail(ss))

TypeOK ==
    /\ n \in 0..MaxN /\ b \in BatchSizes /\ m \in LoadSizes
    /\ sent \in 0..n /\ phase \in {"dump", "load", "done"}
    /\ hasState \in BOOLEAN /\ acc.flag \in BOOLEAN /\ acc.lst \in 0..Len(heap)
    /\ hasState => acc.lst \in 1..Len(heap)
    /\ lpos \in 0..Len(file)

(* C20: once the dump has completed the file holds exactly the source rows,
   once each, in order *)
RoundTripNow == file = Iota(n)
RoundTrip == phase # "dump" => RoundTripNow

(* load_from_file returns the rows of the file, for every m *)
LoaderFaithful ==
    /\ phase # "dump" => out = SubSeq(file, 1, lpos)
    /\ phase = "done" => out = file

(* nothing is written before it was received, nothing is written twice (prefix form) *)
NoEarlyRows == \A k \in 1..Len(file) : file[k] \in 1..sent

(* batch(): consecutive chunks of exactly b items plus one final non-empty shorter
   chunk.  `pending` is what the accumulator still holds back. *)
Pending == IF hasState /\ ~acc.flag THEN heap[acc.lst] ELSE <<>>
BatchRows == [k \in 1..Len(batches) |-> batches[k].rows]
BatchChunksNow ==
    /\ \A k \in 1..Len(batches) :
          /\ Len(batches[k].rows) \in 1..b
          /\ (k < Len(batches) \/ phase = "dump") => Len(batches[k].rows) = b
    /\ phase = "dump" => /\ Concat(BatchRows) \o Pending = Iota(sent)
                         /\ Len(Pending) < b
    /\ phase # "dump" => Concat(BatchRows) = Iota(n)
BatchChunks == BatchChunksNow

(* aliasing: a list handed downstream is never mutated afterwards ... *)
FrozenAfterEmit == \A k \in 1..Len(batches) : heap[batches[k].id] = batches[k].rows
(* ... and no list object is handed downstream twice *)
DistinctObjectsNow == \A j, k \in 1..Len(batches) : j # k => batches[j].id # batches[k].id
DistinctObjects == DistinctObjectsNow

(* informational (Appendix C): record batches are b, b, ..., n mod b *)
RowGroupsNow ==
    phase # "dump" =>
        recs = [k \in 1..((n + b - 1) \div b) |-> IF k * b <= n THEN b ELSE n % b]
RowGroups == RowGroupsNow

-----------------------------------------------------------------------------
(* Collecting instead of stopping: these "invariants" are always TRUE and print one
   record for every configuration in which the property fails on the model.       *)
AtCompletion == phase = "load" /\ lpos = 0

CollectRoundTrip ==
    (AtCompletion /\ ~RoundTripNow) => PrintT(<<"FAIL", "RoundTrip", n, b, file>>)
CollectBatchChunks ==
    (AtCompletion /\ ~BatchChunksNow) => PrintT(<<"FAIL", "BatchChunks", n, b, BatchRows>>)
CollectDistinctObjects ==
    (AtCompletion /\ ~DistinctObjectsNow) =>
        PrintT(<<"FAIL", "DistinctObjects", n, b, [k \in 1..Len(batches) |-> batches[k].id]>>)
CollectRowGroups ==
    (AtCompletion /\ ~RowGroupsNow) => PrintT(<<"FAIL", "RowGroups", n, b, recs>>)

(* behaviour generation: the environment's only choices are n, b, m *)
EmitBehaviour == phase = "done" => PrintT(<<"BEH", n, b, m>>)
=============================================================================
