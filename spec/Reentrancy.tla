----------------------------- MODULE Reentrancy -----------------------------
(***************************************************************************)
(* Re-entrant delivery.  rxsci is synchronous: a subscriber may push the   *)
(* next source item from inside its on_next (a feedback loop through a     *)
(* Subject, a pull-driven reader).  The nested call then runs while the    *)
(* outer one is suspended at its emission.                                 *)
(*                                                                         *)
(* The model is one stateful operator of one key, written as the two       *)
(* statements every multiplexed operator consists of for an item,          *)
(*        store the new state        emit the output                       *)
(* in either order (constant Order), with an explicit call stack; after    *)
(* every emission the subscriber may or may not push the next item         *)
(* (variable fb records its decisions).                                    *)
(*                                                                         *)
(*   Sequential   when all calls have returned, the outputs are those of   *)
(*                the items processed one after the other                  *)
(*                                                                         *)
(* holds for Order = "store-first" for every pattern of nested pushes, and *)
(* is violated for Order = "emit-first" (first, take and lag were written  *)
(* that way before e90fac1, length_prefix.unframe before 1ef0f4a).         *)
(* bin/check-extras checks both and replays every behaviour (items and     *)
(* decisions) on the real operators.                                       *)
(***************************************************************************)
EXTENDS Integers, Sequences, FiniteSets, TLC

CONSTANTS Op,        \* "first" | "take2" | "count" | "scan" | "lag1" | "lag2" | "duc"
          Vals,      \* item values
          MaxLen,    \* number of items
          Order      \* "store-first" | "emit-first"

VARIABLES items,     \* the source sequence (chosen initially)
          nxt,       \* index of the next item to deliver
          state,     \* the operator's per-key state
          stack,     \* call stack: frames [x, pc, ns, o]
          out,       \* outputs delivered to the subscriber, in order
          fb         \* the subscriber's decisions, one per emission: TRUE = pushed the next item
vars == <<items, nxt, state, stack, out, fb>>

RECURSIVE SeqsOf(_, _)
SeqsOf(S, n) == IF n = 0 THEN {<<>>} ELSE {Append(s, x) : s \in SeqsOf(S, n - 1), x \in S}

InitState ==
    CASE Op = "first" -> FALSE
      [] Op = "take2" -> 2
      [] Op \in {"count", "scan"} -> 0
      [] Op \in {"lag1", "lag2"} -> <<>>
      [] Op = "duc" -> <<FALSE, 0>>

(* one item on state s: <<new state, outputs (at most one)>> *)
StepOf(s, x) ==
    CASE Op = "first" -> IF s THEN <<s, <<>>>> ELSE <<TRUE, <<x>>>>
      [] Op = "take2" -> IF s > 0 THEN <<s - 1, <<x>>>> ELSE <<s, <<>>>>
      [] Op = "count" -> <<s + 1, <<s + 1>>>>
      [] Op = "scan"  -> <<s + x, <<s + x>>>>
      [] Op \in {"lag1", "lag2"} ->
            LET n == IF Op = "lag1" THEN 1 ELSE 2
                q == Append(s, x)
            IN <<IF Len(q) > n THEN Tail(q) ELSE q, << <<q[1], x>> >> >>
      [] Op = "duc" -> IF s[1] /\ s[2] = x THEN <<s, <<>>>> ELSE << <<TRUE, x>>, <<x>> >>

RECURSIVE SeqRun(_, _, _)
SeqRun(s, xs, acc) == IF xs = <<>> THEN acc
                      ELSE LET r == StepOf(s, Head(xs)) IN SeqRun(r[1], Tail(xs), acc \o r[2])

Init ==
    /\ items \in SeqsOf(Vals, MaxLen)
    /\ nxt = 1 /\ state = InitState /\ stack = <<>> /\ out = <<>> /\ fb = <<>>

Top == stack[Len(stack)]
Pop == SubSeq(stack, 1, Len(stack) - 1)
SetTop(f) == [stack EXCEPT ![Len(stack)] = f]
Frame(x) == [x |-> x, pc |-> "begin", ns |-> InitState, o |-> <<>>]

(* the source pushes the next item: from the top level, or (Nested) from inside on_next *)
Deliver ==
    /\ stack = <<>> /\ nxt <= Len(items)
    /\ stack' = <<Frame(items[nxt])>> /\ nxt' = nxt + 1
    /\ UNCHANGED <<items, state, out, fb>>

Begin ==    \* read the state, compute
    /\ stack # <<>> /\ Top.pc = "begin"
    /\ LET r == StepOf(state, Top.x) IN
       stack' = SetTop([Top EXCEPT !.pc = IF Order = "store-first" THEN "store" ELSE "emit",
                                   !.ns = r[1], !.o = r[2]])
    /\ UNCHANGED <<items, nxt, state, out, fb>>

Store ==
    /\ stack # <<>> /\ Top.pc = "store"
    /\ state' = Top.ns
    /\ stack' = IF Order = "store-first" THEN SetTop([Top EXCEPT !.pc = "emit"]) ELSE Pop
    /\ UNCHANGED <<items, nxt, out, fb>>

After == IF Order = "store-first" THEN "return" ELSE "store"

(* the emission: the subscriber receives the output and decides whether to push the next item *)
Emit(push) ==
    /\ stack # <<>> /\ Top.pc = "emit"
    /\ IF Top.o = <<>>
       THEN /\ ~push
            /\ stack' = IF After = "return" THEN Pop ELSE SetTop([Top EXCEPT !.pc = "store"])
            /\ UNCHANGED <<nxt, out, fb>>
       ELSE /\ out' = out \o Top.o
            /\ fb' = Append(fb, push)
            /\ IF push
               THEN /\ nxt <= Len(items)
                    /\ stack' = Append(SetTop([Top EXCEPT !.pc = After]), Frame(items[nxt]))
                    /\ nxt' = nxt + 1
               ELSE /\ stack' = IF After = "return" THEN Pop ELSE SetTop([Top EXCEPT !.pc = "store"])
                    /\ UNCHANGED nxt
    /\ UNCHANGED <<items, state>>

Return ==   \* back from a nested push (store-first: nothing is left to do)
    /\ stack # <<>> /\ Top.pc = "return"
    /\ stack' = Pop
    /\ UNCHANGED <<items, nxt, state, out, fb>>

Next == Deliver \/ Begin \/ Store \/ Return \/ \E p \in BOOLEAN : Emit(p)
Spec == Init /\ [][Next]_vars

-----------------------------------------------------------------------------
Quiescent == stack = <<>> /\ nxt > Len(items)
Sequential == Quiescent => out = SeqRun(InitState, items, <<>>)

EmitBehaviour == Quiescent => PrintT(<<"BEH", Op, items, fb, out>>)
=============================================================================
