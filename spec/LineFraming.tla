---------------------------- MODULE LineFraming ----------------------------
(***************************************************************************)
(* rxsci.framing.line: frame() appends a newline to every item, unframe()  *)
(* re-assembles lines from an arbitrarily chunked character stream with a  *)
(* carry-over buffer `acc` and flushes a non-empty `acc` at completion.    *)
(*                                                                         *)
(* The environment cuts the wire nondeterministically (Feed(n), n may be   *)
(* 0).  Property C15: the emitted items are a function of the wire only,   *)
(* not of the cuts, and equal the framed items (plus a trailing            *)
(* unterminated line).                                                     *)
(*                                                                         *)
(* Text is a sequence of symbols; NL is the newline symbol.                *)
(***************************************************************************)
EXTENDS Naturals, Sequences, TLC

CONSTANTS Alphabet,   \* symbols allowed inside an item (NL excluded)
          NL,         \* the newline symbol
          MaxItems, MaxLen, MaxChunk,
          KeepHist,   \* TRUE: record the cut vector (behaviour generation)
          Deviation   \* "none" | "no-flush" | "drop-acc": slips re-introduced in the model to
                      \* show that the invariants are not vacuous (they must be violated)

VARIABLES items,  \* the framed items (chosen initially)
          tail,   \* unterminated text after the last frame (may be empty)
          pos,    \* number of wire symbols delivered so far
          acc,    \* unframe(): carry-over buffer
          out,    \* unframe(): items emitted so far
          done,   \* completion delivered
          hist    \* history: sizes of the chunks fed (only if KeepHist)

vars == <<items, tail, pos, acc, out, done, hist>>

SeqsUpTo(S, n) == UNION {[1..m -> S] : m \in 0..n}

-----------------------------------------------------------------------------
(* frame(): ''.join([i, '\n']) per item *)
FrameItem(i) == Append(i, NL)

RECURSIVE Concat(_)
Concat(ss) == IF ss = <<>> THEN <<>> ELSE Head(ss) \o Concat(Tail(ss))

FrameAll(its) == Concat([j \in 1..Len(its) |-> FrameItem(its[j])])

WireOf(its, tl) == FrameAll(its) \o tl

-----------------------------------------------------------------------------
(* str.split('\n'): always at least one piece *)
RECURSIVE SplitNL(_)
SplitNL(s) ==
    IF \A j \in 1..Len(s) : s[j] # NL THEN <<s>>
    ELSE LET p == CHOOSE j \in 1..Len(s) : s[j] = NL /\ \A q \in 1..(j-1) : s[q] # NL
         IN <<SubSeq(s, 1, p-1)>> \o SplitNL(SubSeq(s, p+1, Len(s)))

(* unframe().on_next(chunk), transcribed:
       lines = i.split('\n'); lines[0] = acc + lines[0]
       acc = lines[-1] or ''
       for line in lines[0:-1]: observer.on_next(line)              *)
OnNextAcc(a, chunk) ==
    LET lines == SplitNL(chunk)
        l2 == [lines EXCEPT ![1] = a \o lines[1]]
    IN IF Deviation = "drop-acc" /\ Len(lines) = 1 THEN lines[1]   \* forgets the carry-over
       ELSE l2[Len(l2)]

OnNextOut(a, chunk) ==
    LET lines == SplitNL(chunk)
        l2 == [lines EXCEPT ![1] = a \o lines[1]]
    IN SubSeq(l2, 1, Len(l2) - 1)

(* unframe().on_completed(): if len(acc) > 0: on_next(acc) *)
OnCompletedOut(a) == IF Len(a) > 0 /\ Deviation # "no-flush" THEN <<a>> ELSE <<>>

-----------------------------------------------------------------------------
(* The specification of the result: a function of the delivered prefix only *)
CompleteLines(w) == LET p == SplitNL(w) IN SubSeq(p, 1, Len(p) - 1)
Remainder(w)     == LET p == SplitNL(w) IN p[Len(p)]
Expected(its, tl) == its \o (IF tl = <<>> THEN <<>> ELSE <<tl>>)

-----------------------------------------------------------------------------
Init ==
    /\ items \in SeqsUpTo(SeqsUpTo(Alphabet, MaxLen), MaxItems)
    /\ tail \in SeqsUpTo(Alphabet, MaxLen)
    /\ pos = 0 /\ acc = <<>> /\ out = <<>> /\ done = FALSE /\ hist = <<>>

Feed(n) ==
    /\ ~done
    /\ pos + n <= Len(WireOf(items, tail))
    /\ LET chunk == SubSeq(WireOf(items, tail), pos + 1, pos + n) IN
         /\ acc' = OnNextAcc(acc, chunk)
         /\ out' = out \o OnNextOut(acc, chunk)
    /\ pos' = pos + n
    /\ hist' = IF KeepHist THEN Append(hist, n) ELSE hist
    /\ UNCHANGED <<items, tail, done>>

Complete ==
    /\ ~done
    /\ pos = Len(WireOf(items, tail))
    /\ out' = out \o OnCompletedOut(acc)
    /\ done' = TRUE
    /\ UNCHANGED <<items, tail, pos, acc, hist>>

Next == (\E n \in 0..MaxChunk : Feed(n)) \/ Complete

Spec == Init /\ [][Next]_vars

-----------------------------------------------------------------------------
TypeOK == pos \in 0..Len(WireOf(items, tail)) /\ done \in BOOLEAN

(* chunk-boundary independence: the operator state is a function of the prefix *)
Confluence ==
    ~done => LET w == SubSeq(WireOf(items, tail), 1, pos) IN
               /\ out = CompleteLines(w)
               /\ acc = Remainder(w)

RoundTrip == done => out = Expected(items, tail)

(* frames of the wire are exactly the items: framing is injective on NL-free items *)
FrameInverse == CompleteLines(WireOf(items, tail)) = items
                /\ Remainder(WireOf(items, tail)) = tail

(* nothing is emitted that has not been completely received *)
NoEarlyOutput == Len(out) <= Len(items) + 1

(* bound for behaviour generation (empty chunks would otherwise repeat for ever) *)
HistBound == Len(hist) <= Len(WireOf(items, tail)) + 2

(* behaviour generation: print <<items, tail, cuts>> at every terminal state *)
EmitBehaviour == done => PrintT(<<"BEH", items, tail, hist>>)
=============================================================================
