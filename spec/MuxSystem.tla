----------------------------- MODULE MuxSystem -----------------------------
(***************************************************************************)
(* The environment of the implementation model: it creates top-level keys, *)
(* pushes items for live keys, completes keys (and creates them again:     *)
(* key re-use) in every order, then completes the stream.  The pipelines   *)
(* under test are data (IOEnv.PIPES_FILE, the same descriptors the         *)
(* harness builds the real pipelines from).  Invariant: the layer-A        *)
(* contracts hold on the logs of every reachable state, i.e. for every     *)
(* interleaving of the keys and every history of key re-use within the     *)
(* bounds.                                                                 *)
(***************************************************************************)
EXTENDS MuxModel, Json, IOUtils

CONSTANTS KeyIdx,      \* top-level key indices the environment may use
          ValSet,      \* integer item values
          ItemKind,    \* "int": items are integers; "ts": <<timestamp, closing flag>>
          MaxEvents,   \* source events per behaviour
          MaxLives,    \* creations per key index
          Emit_        \* TRUE: print behaviours (generation runs)

Pipes == JsonDeserialize(IOEnv.PIPES_FILE)

VARIABLES pid, S, live, lives, clock, ended
vars == <<pid, S, live, lives, clock, ended>>

Top == Pipes[pid]
Src == S.logs[<<0>>]

Init ==
    /\ pid \in 1..Len(Pipes)
    /\ S = InitS(Pipes[pid])
    /\ live = {} /\ lives = [k \in KeyIdx |-> 0] /\ clock = [k \in KeyIdx |-> 0]
    /\ ended = FALSE

Running == ~ended /\ ~S.dead /\ Len(Src) < MaxEvents

(* keys are first created in increasing order (the operators never look at the
   value of an index, only at its identity) *)
Create(k) ==
    /\ Running /\ k \notin live /\ lives[k] < MaxLives
    /\ \A k2 \in KeyIdx : k2 < k => lives[k2] > 0
    /\ S' = Push(Top, MEv("c", <<k>>, None), S)
    /\ live' = live \cup {k} /\ lives' = [lives EXCEPT ![k] = @ + 1]
    /\ clock' = [clock EXCEPT ![k] = 0]
    /\ UNCHANGED <<pid, ended>>

Item(k) ==
    /\ Running /\ k \in live
    /\ IF ItemKind = "int"
       THEN \E v \in ValSet :
               /\ S' = Push(Top, NextEv(<<k>>, IntV(v)), S)
               /\ UNCHANGED clock
       ELSE \E gap \in ValSet, c \in BOOLEAN :
               /\ S' = Push(Top, NextEv(<<k>>, TupV(<<IntV(clock[k] + gap), BoolV(c)>>)), S)
               /\ clock' = [clock EXCEPT ![k] = @ + gap]
    /\ UNCHANGED <<pid, live, lives, ended>>

Done(k) ==
    /\ Running /\ k \in live
    /\ S' = Push(Top, MEv("d", <<k>>, None), S)
    /\ live' = live \ {k}
    /\ UNCHANGED <<pid, lives, clock, ended>>

End ==
    /\ ~ended /\ ~S.dead /\ live = {} /\ Len(Src) > 0
    /\ ended' = TRUE
    /\ UNCHANGED <<pid, S, live, lives, clock>>

Next == (\E k \in KeyIdx : Create(k) \/ Item(k) \/ Done(k)) \/ End
Spec == Init /\ [][Next]_vars

-----------------------------------------------------------------------------
(* the contracts of layer A are an invariant of the implementation model *)
Bad == IF S.dead THEN {} ELSE Violations(Top, S.logs, ended)
ContractsHold == Bad = {}

(* the stream dies exactly when an assertion fails or an unhandled item-level
   error reaches a demultiplexer *)
DeathJustified == S.dead <=> FatalOrds(Top, <<>>, S.logs) # {}

RECURSIVE SeqOfSet(_)
SeqOfSet(T) == IF T = {} THEN <<>> ELSE LET x == CHOOSE y \in T : TRUE IN <<x>> \o SeqOfSet(T \ {x})

StripO(L) == [q \in 1..Len(L) |-> <<L[q].t, L[q].k, L[q].v>>]
AllLogs == [p \in DOMAIN S.logs |-> StripO(S.logs[p])]

(* generation: one line per terminal state: pipeline id, source events, every
   boundary log (for the log-for-log comparison with the real code) *)
EmitBehaviour ==
    Emit_ /\ (ended \/ S.dead \/ Len(Src) = MaxEvents) =>
        PrintT(<<"BEH", pid, StripO(Src), S.dead,
                 LET ps == SeqOfSet(DOMAIN S.logs) IN
                 [q \in 1..Len(ps) |-> <<ps[q], StripO(S.logs[ps[q]])>>]>>)
=============================================================================
