------------------------------ MODULE Sections ------------------------------
(***************************************************************************)
(* Several store sections in one process, each subscribed, disposed and    *)
(* subscribed again (state/with_store.py, state/store.py).                 *)
(*                                                                         *)
(* A section is one application of with_store / with_memory_store: it owns *)
(* a StoreManager.  On every subscription a *fresh* topology is probed     *)
(* (the stateful operators of the pipeline obtain ids 0..k-1 again) and    *)
(* handed to the manager (set_topology); the manager builds its Store      *)
(* lazily, at the first use, from the topology it holds then, and keeps it *)
(* for later subscriptions (active_partition stays 0).  The root key is    *)
(* created at subscription: every operator resets its state (add_key).     *)
(*                                                                         *)
(* The stateful operators here are counters (scan with seed 0): the value  *)
(* each emits for an item is the number of items its section received      *)
(* since it was (re)subscribed.                                            *)
(*                                                                         *)
(* Statements:                                                             *)
(*   NoIndexError   no operator ever addresses a state the store lacks     *)
(*   Independent    the counters of a section count the items of that      *)
(*                  section's current subscription, whatever the other     *)
(*                  sections do and whatever happened before               *)
(* Deviations (must be refuted):                                           *)
(*   "shared-manager"   one StoreManager for every section, whose          *)
(*        set_topology drops the stores (a default argument evaluated      *)
(*        once: seeded change C04-m)                                       *)
(*   "topology-per-application"   the topology object is created when the  *)
(*        section is built, not when it is subscribed: a second            *)
(*        subscription declares its states again behind the first ones     *)
(*        (seeded change C06-m)                                            *)
(* Checked by bin/check-extras; every behaviour of the bounded model is    *)
(* replayed on real with_memory_store sections.                            *)
(***************************************************************************)
EXTENDS Integers, Sequences, FiniteSets, TLC

CONSTANTS CfgId,        \* which row of NOpsTable
          Deviation,    \* "none" | "shared-manager" | "topology-per-application"
          MaxSteps

(* NOps[s]: number of stateful operators of section s *)
NOpsTable == << <<1, 1>>, <<1, 2>>, <<2, 1>>, <<2, 1, 1>> >>
NOps == NOpsTable[CfgId]
Sect == 1..Len(NOps)
Mgr(s) == IF Deviation = "shared-manager" THEN 1 ELSE s

VARIABLES sub,      \* sub[s]: "no" | "live" | "done"
          ids,      \* ids[s]: the state ids held by the operators of s (last probe)
          appTopo,  \* appTopo[s]: states declared so far in a topology that outlives subscriptions
          mtopo,    \* mtopo[m]: number of states of the topology the manager holds
          mstore,   \* mstore[m]: <<>> (no Store yet) or the sequence of state values (counter per state id)
          since,    \* since[s]: items received since the current subscription
          out,      \* out[s]: what the section emitted (one value per item and operator chain end)
          err, hist, steps

vars == <<sub, ids, appTopo, mtopo, mstore, since, out, err, hist, steps>>

Init ==
    /\ sub = [s \in Sect |-> "no"] /\ ids = [s \in Sect |-> <<>>] /\ appTopo = [s \in Sect |-> 0]
    /\ mtopo = [m \in Sect |-> 0] /\ mstore = [m \in Sect |-> <<>>]
    /\ since = [s \in Sect |-> 0] /\ out = [s \in Sect |-> <<>>]
    /\ err = FALSE /\ hist = <<>> /\ steps = 0

(* get_store(): the Store is built at the first use from the topology held then *)
StoreOf(ms, mt, m) == IF ms[m] = <<>> THEN [q \in 1..mt[m] |-> 0] ELSE ms[m]

Subscribe(s) ==
    /\ sub[s] = "no" /\ ~err /\ steps < MaxSteps
    /\ LET k == NOps[s]
           base == IF Deviation = "topology-per-application" THEN appTopo[s] ELSE 0
           newids == [q \in 1..k |-> base + q - 1]
           m == Mgr(s)
           mt == [mtopo EXCEPT ![m] = base + k]
           ms0 == IF Deviation = "shared-manager" THEN [mstore EXCEPT ![m] = <<>>] ELSE mstore
           st == StoreOf(ms0, mt, m)       \* OnCreateMux of the root key: add_key on every state
           bad == \E q \in 1..k : newids[q] + 1 > Len(st)
       IN /\ ids' = [ids EXCEPT ![s] = newids]
          /\ appTopo' = [appTopo EXCEPT ![s] = base + k]
          /\ mtopo' = mt
          /\ err' = bad
          /\ mstore' = IF bad THEN ms0
                       ELSE [ms0 EXCEPT ![m] = [q \in 1..Len(st) |->
                                                  IF \E j \in 1..k : newids[j] + 1 = q THEN 0 ELSE st[q]]]
    /\ sub' = [sub EXCEPT ![s] = "live"]
    /\ since' = [since EXCEPT ![s] = 0]
    /\ hist' = Append(hist, <<"sub", s>>) /\ steps' = steps + 1
    /\ UNCHANGED out

Item(s) ==
    /\ sub[s] = "live" /\ ~err /\ steps < MaxSteps
    /\ LET m == Mgr(s)
           st == StoreOf(mstore, mtopo, m)
           bad == \E q \in 1..Len(ids[s]) : ids[s][q] + 1 > Len(st)
           st2 == [q \in 1..Len(st) |-> IF \E j \in 1..Len(ids[s]) : ids[s][j] + 1 = q THEN st[q] + 1 ELSE st[q]]
       IN /\ err' = bad
          /\ mstore' = IF bad THEN mstore ELSE [mstore EXCEPT ![m] = st2]
          \* the operators are chained: the section emits what its last counter holds
          /\ out' = IF bad \/ ids[s] = <<>> THEN out
                    ELSE [out EXCEPT ![s] = Append(@, st2[ids[s][Len(ids[s])] + 1])]
    /\ since' = [since EXCEPT ![s] = @ + 1]
    /\ hist' = Append(hist, <<"item", s>>) /\ steps' = steps + 1
    /\ UNCHANGED <<sub, ids, appTopo, mtopo>>

Dispose(s) ==       \* the subscriber leaves; the root key stays open in the store
    /\ sub[s] = "live" /\ ~err /\ steps < MaxSteps
    /\ sub' = [sub EXCEPT ![s] = "no"]
    /\ hist' = Append(hist, <<"dispose", s>>) /\ steps' = steps + 1
    /\ UNCHANGED <<ids, appTopo, mtopo, mstore, since, out, err>>

Next == \E s \in Sect : Subscribe(s) \/ Item(s) \/ Dispose(s)
Spec == Init /\ [][Next]_vars

-----------------------------------------------------------------------------
NoIndexError == ~err

(* every counter of a live section holds the number of items of its current subscription *)
Independent ==
    ~err => \A s \in Sect : sub[s] = "live" =>
        \A q \in 1..Len(ids[s]) :
            LET st == StoreOf(mstore, mtopo, Mgr(s)) IN
            ids[s][q] + 1 <= Len(st) /\ st[ids[s][q] + 1] = since[s]

(* what a section emitted: 1, 2, ... restarting at every subscription *)
EmitBehaviour == (steps = MaxSteps) => PrintT(<<"BEH", hist, out>>)
=============================================================================
